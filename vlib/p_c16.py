"""C16: LU factorisation and triangular solves (real; complex: see DESIGN.md)."""
import collections
import os
from fractions import Fraction
from . import common, harness, gen_mat
from .harness import unhx

EPS = 2.0 ** -52


def det_exact(A):
    n = len(A)
    M = [[Fraction(v) for v in row] for row in A]
    det = Fraction(1)
    for k in range(n):
        p = next((i for i in range(k, n) if M[i][k] != 0), None)
        if p is None:
            return Fraction(0)
        if p != k:
            M[k], M[p] = M[p], M[k]
            det = -det
        det *= M[k][k]
        for i in range(k + 1, n):
            f = M[i][k] / M[k][k]
            if f:
                for j in range(k, n):
                    M[i][j] -= f * M[k][j]
    return det


def zero_pivot_column(A):
    """exactly zero pivot column at some stage of exact elimination with the implementation's pivot order is hard to
    replay; the sufficient condition used here: some column of A is identically zero"""
    n = len(A)
    return any(all(A[i][k] == 0.0 for i in range(n)) for k in range(n))


def oracle(line, res):
    kv = dict(t.split("=", 1) for t in line.split()[1:] if "=" in t)
    n, cols, iplen = int(kv["n"]), int(kv["cols"]), int(kv["iplen"])
    a = [unhx(x) for x in kv["a"].split(":", 1)[1].split(",")] if kv["a"].split(":", 1)[1] else []
    b = [unhx(x) for x in kv["b"].split(":", 1)[1].split(",")] if kv["b"].split(":", 1)[1] else []
    out = []
    r0 = res[0] if res else "none"
    if n != cols:
        if r0 != "res nonsquare":
            out.append(("shape-error", "non-square input must be rejected with NonSquareMatrix, got %r" % r0))
        return out
    if iplen != n:
        if r0 != "res pivotsize":
            out.append(("pivot-size-error", "pivot slice of wrong length must be rejected with PivotSizeMismatch, got %r" % r0))
        return out
    A = [a[i * n:(i + 1) * n] for i in range(n)]
    if zero_pivot_column(A):
        if r0 != "res singular":
            out.append(("zero-column-accepted", "a matrix with an identically zero column was not rejected with SingularMatrix: %r" % r0))
        return out
    if r0 == "res panic":
        out.append(("panic", "lu_decomp panicked on a valid input"))
        return out
    finite = all(abs(v) < 1e150 for v in a)
    if r0 == "res singular":
        if finite and det_exact(A) != 0 and cond_ok(A):
            out.append(("nonsingular-rejected", "a nonsingular matrix (exact determinant != 0) was rejected with SingularMatrix"))
        return out
    if r0 != "res ok":
        out.append(("unexpected-result", "unexpected result %r" % r0))
        return out
    lu = [l for l in res if l.startswith("lu ")]
    x = [l for l in res if l.startswith("x ")]
    if any(l == "solve panic" for l in res):
        out.append(("solve-panic", "lin_solve panicked"))
        return out
    if lu:
        L = [unhx(v) for v in lu[0].split()[1].split(",")]
        for k in range(n - 1):
            for i in range(k + 1, n):
                if abs(L[i * n + k]) > 1.0 + 8 * EPS:
                    out.append(("multiplier-gt-1", "stored multiplier |l(%d,%d)| = %r > 1: the pivot was not the largest entry of its column" % (i, k, abs(L[i * n + k]))))
                    return out
    ut = [l for l in res if l.startswith("a_untouched ")]
    if ut and ut[0] != "a_untouched true":
        out.append(("solve-modified-matrix", "lin_solve modified the factorised matrix"))
    if x and finite:
        xs = [unhx(v) for v in x[0].split()[1].split(",")]
        if all(v == v and abs(v) != float("inf") for v in xs):
            FA = [[Fraction(v) for v in row] for row in A]
            fx = [Fraction(v) for v in xs]
            resid = [abs(sum(FA[i][j] * fx[j] for j in range(n)) - Fraction(b[i])) for i in range(n)]
            normA = max(sum(abs(v) for v in row) for row in FA)
            normx = max(abs(v) for v in fx) if fx else Fraction(0)
            bound = Fraction(64) * n * Fraction(EPS) * normA * normx * growth_allowance(n)
            if max(resid) > bound and bound > 0:
                out.append(("residual", "max |A x - b| = %.3g exceeds 64 n eps |A| |x| = %.3g" % (float(max(resid)), float(bound))))
    return out


def cdet_exact(Ar, Ai):
    """exact determinant of a complex matrix given by Fractions (real, imag): returns (re, im)"""
    n = len(Ar)
    M = [[(Fraction(Ar[i][j]), Fraction(Ai[i][j])) for j in range(n)] for i in range(n)]
    cm = lambda a, b: (a[0] * b[0] - a[1] * b[1], a[0] * b[1] + a[1] * b[0])
    cd = lambda a, b: ((a[0] * b[0] + a[1] * b[1]) / (b[0] ** 2 + b[1] ** 2), (a[1] * b[0] - a[0] * b[1]) / (b[0] ** 2 + b[1] ** 2))
    det = (Fraction(1), Fraction(0))
    for k in range(n):
        p = next((i for i in range(k, n) if M[i][k] != (0, 0)), None)
        if p is None:
            return (Fraction(0), Fraction(0))
        if p != k:
            M[k], M[p] = M[p], M[k]
            det = (-det[0], -det[1])
        det = cm(det, M[k][k])
        for i in range(k + 1, n):
            f = cd(M[i][k], M[k][k])
            if f != (0, 0):
                for j in range(k, n):
                    t = cm(f, M[k][j])
                    M[i][j] = (M[i][j][0] - t[0], M[i][j][1] - t[1])
    return det


def oracle_c(line, res):
    """complex twin of `oracle`: shape rejections, zero column, multipliers (|re|+|im| pivoting keeps |l|_1 <= sqrt 2), exact residual"""
    kv = dict(t.split("=", 1) for t in line.split()[1:] if "=" in t)
    n, cols, iplen = int(kv["n"]), int(kv["cols"]), int(kv["iplen"])
    un = lambda key: [unhx(x) for x in kv[key].split(":", 1)[1].split(",")] if kv[key].split(":", 1)[1] else []
    ar, ai, br, bi = un("ar"), un("ai"), un("br"), un("bi")
    out = []
    r0 = res[0] if res else "none"
    if n != cols:
        if r0 != "res nonsquare":
            out.append(("shape-error-complex", "non-square input must be rejected with NonSquareMatrix, got %r" % r0))
        return out
    if iplen != n:
        if r0 != "res pivotsize":
            out.append(("pivot-size-error-complex", "pivot slice of wrong length must be rejected with PivotSizeMismatch, got %r" % r0))
        return out
    Ar = [ar[i * n:(i + 1) * n] for i in range(n)]
    Ai = [ai[i * n:(i + 1) * n] for i in range(n)]
    if any(all(Ar[i][k] == 0.0 and Ai[i][k] == 0.0 for i in range(n)) for k in range(n)):
        if r0 != "res singular":
            out.append(("zero-column-accepted-complex", "a complex matrix with an identically zero column was not rejected with SingularMatrix: %r" % r0))
        return out
    if r0 == "res panic":
        out.append(("panic-complex", "lu_decomp_complex panicked on a valid input"))
        return out
    if r0 == "res singular":
        d = cdet_exact(Ar, Ai)
        had = 1.0
        for i in range(n):
            had *= max(1e-300, sum(Ar[i][j] ** 2 + Ai[i][j] ** 2 for j in range(n)) ** 0.5)
        if d != (0, 0) and (float(d[0]) ** 2 + float(d[1]) ** 2) ** 0.5 > 1e-8 * had:
            out.append(("nonsingular-rejected-complex", "a nonsingular complex matrix was rejected with SingularMatrix"))
        return out
    if r0 != "res ok":
        out.append(("unexpected-result-complex", "unexpected result %r" % r0))
        return out
    if any(l == "solve panic" for l in res):
        out.append(("solve-panic-complex", "lin_solve_complex panicked"))
        return out
    lur = [l for l in res if l.startswith("lur ")]
    lui = [l for l in res if l.startswith("lui ")]
    if lur and lui:
        Lr = [unhx(v) for v in lur[0].split()[1].split(",")]
        Li = [unhx(v) for v in lui[0].split()[1].split(",")]
        for k in range(n - 1):
            for i in range(k + 1, n):
                m2 = Lr[i * n + k] ** 2 + Li[i * n + k] ** 2
                if m2 > 2.0 * (1 + 16 * EPS):
                    out.append(("multiplier-gt-1-complex", "stored multiplier |l(%d,%d)|^2 = %r > 2: the pivot was not the entry of largest |re|+|im| in its column" % (i, k, m2)))
                    return out
    ut = [l for l in res if l.startswith("a_untouched ")]
    if ut and ut[0] != "a_untouched true":
        out.append(("solve-modified-matrix-complex", "lin_solve_complex modified the factorised matrices"))
    xr = [l for l in res if l.startswith("xr ")]
    xi = [l for l in res if l.startswith("xi ")]
    if xr and xi:
        xr = [unhx(v) for v in xr[0].split()[1].split(",")]
        xi = [unhx(v) for v in xi[0].split()[1].split(",")]
        if all(v == v and abs(v) != float("inf") for v in xr + xi):
            F = Fraction
            worst = F(0)
            for i in range(n):
                sr = sum(F(Ar[i][j]) * F(xr[j]) - F(Ai[i][j]) * F(xi[j]) for j in range(n)) - F(br[i])
                si = sum(F(Ar[i][j]) * F(xi[j]) + F(Ai[i][j]) * F(xr[j]) for j in range(n)) - F(bi[i])
                worst = max(worst, abs(sr) + abs(si))
            normA = max(sum(abs(F(Ar[i][j])) + abs(F(Ai[i][j])) for j in range(n)) for i in range(n))
            normx = max(abs(F(a)) + abs(F(b)) for a, b in zip(xr, xi))
            bound = F(64) * n * F(EPS) * normA * normx * growth_allowance(n)
            if worst > bound and bound > 0:
                out.append(("residual-complex", "max |A x - b| = %.3g exceeds 64 n eps |A| |x| = %.3g (complex system)" % (float(worst), float(bound))))
    return out


def growth_allowance(n):
    return Fraction(max(1, n))


def cond_ok(A):
    """the float factorisation of a nonsingular matrix can only hit an exact zero pivot through catastrophic cancellation;
    exclude matrices whose exact determinant is tiny relative to the Hadamard bound"""
    n = len(A)
    had = 1.0
    for row in A:
        had *= max(1e-300, sum(v * v for v in row) ** 0.5)
    return abs(float(det_exact(A))) > 1e-8 * had


def extra_cases(seed, n):
    """tiny / huge power-of-two scalings and graded columns of well-conditioned matrices"""
    import random
    rng = random.Random(seed + 7)
    cases, metas = [], {}
    for c in range(n):
        k = rng.randint(2, 6)
        M = [[float(rng.randint(-3, 3)) for _ in range(k)] for _ in range(k)]
        for i in range(k):
            M[i][i] += rng.choice([5.0, -5.0])
        mode = rng.choice(["tiny", "huge", "gradedcols", "gradedrows"])
        if mode == "tiny":
            s = 2.0 ** -rng.randint(40, 200)
            M = [[v * s for v in row] for row in M]
        elif mode == "huge":
            s = 2.0 ** rng.randint(40, 200)
            M = [[v * s for v in row] for row in M]
        elif mode == "gradedcols":
            sc = [2.0 ** -rng.randint(0, 90) for _ in range(k)]
            M = [[v * sc[j] for j, v in enumerate(row)] for row in M]
        else:
            sc = [2.0 ** -rng.randint(0, 90) for _ in range(k)]
            M = [[v * sc[i] for v in row] for i, row in enumerate(M)]
        cid = "s%d" % c
        cases.append(gen_mat.lu_case(cid, k, k, k, [v for row in M for v in row], [float(rng.randint(-4, 4)) for _ in range(k)]))
        metas[cid] = {"n": k, "kind": "scaled-" + mode}
    return cases, metas


def check():
    rep = common.Report("C16")
    rep.cov["trusted_base"] = [
        "Coq 8.16.1 kernel; theorems over R (stdlib real axioms) about model/LU.v",
        "extraction + driver.ml + /verif/harness for the bit-exact replay of lu_decomp / lin_solve",
        "floating-point backward error (Wilkinson/Higham) is NOT proved: measured by the exact-rational residual oracle only",
        "complex LU (lu_decomp_complex / lin_solve_complex): model/LUc.v replayed bit-for-bit on generated complex systems and inside the Radau replays; its exact-arithmetic correctness is not a theorem yet (see props/C16.v)",
    ]
    broken = []
    common.regenerate()
    if os.path.exists(os.path.join(common.COQ, "props", "C16.v")):
        ok, detail = common.proof_stage(rep, "C16.v")
        if not ok:
            broken.append(detail)
    ok, log = harness.build_all()
    if not ok:
        rep.violation({"property": "C16", "broken": "build failed", "log": log[-2000:]}, found=False)
        return rep.finish()
    thorough = common.tier() == "thorough"
    cases, metas = gen_mat.lu_cases(common.seed(), 20000 if thorough else 2400, 12 if thorough else 8)
    c2, m2 = extra_cases(common.seed(), 4000 if thorough else 400)
    cases += c2
    metas.update(m2)
    ex = gen_mat.lu_exhaustive_small(3, limit=(None if thorough else 3000), seed=common.seed())
    for l in ex:
        metas[harness.case_id(l)] = {"n": int(l.split("n=")[1].split()[0]), "kind": "small-int-exhaustive"}
    cases += ex
    cc, mc = gen_mat.luc_cases(common.seed(), 12000 if thorough else 1600, 10 if thorough else 6)
    cases += cc
    metas.update(mc)
    impl, e1 = harness.run_impl(cases)
    model, e2 = harness.run_model(cases)
    df = harness.diff(cases, impl, model)
    diff_ids = {d[0] for d in df}
    found = False
    dist = collections.Counter()
    nontriv = set()
    nofound = []
    for line in cases:
        cid = harness.case_id(line)
        m = metas[cid]
        res = impl.get(cid, [])
        dist["%s/%s" % (m["kind"], res[0] if res else "none")] += 1
        if m["n"] >= 2 and res and res[0] == "res ok":
            nontriv.add(line.split(" ", 2)[2])
        fired = oracle_c(line, res) if line.startswith("luc ") else oracle(line, res)
        for key, msg in fired:
            found = True
            rep.violation({"property": "C16", "case": line, "meta": m, "observed": msg, "impl_result": res[:6]}, found=True, key=key)
        if cid in diff_ids and not fired:
            nofound.append((line, [d for d in df if d[0] == cid][0][2], m))
    for line, d, m in nofound[:5]:
        rep.violation({"property": "C16", "broken": "correspondence: model and implementation differ", "case": line, "meta": m,
                       "impl_line": d[0], "model_line": d[1]}, found=False)
    for b in broken:
        if not found:
            rep.violation({"property": "C16", "broken": b}, found=False)
    rep.cov["evaluations"] = len(cases)
    rep.cov["distinct_nontrivial"] = len(nontriv)
    rep.cov["exhaustive_small_int"] = bool(thorough)
    rep.cov["rule"] = ("random dense / small-integer / sparse / graded / permuted-triangular / exactly singular / zero-column / shape-error matrices "
                       "n=1..8 (thorough 1..12), power-of-two scaled and graded well-conditioned matrices, and small-integer matrices up to 3x3 "
                       "(entries -2..2: sampled in quick, exhaustive in thorough); LU, pivots and solution compared bit-for-bit with the model; "
                       "complex systems n=1..6 (10) with exactly real / imaginary / zero entries, Radau-shaped, singular, zero-column and shape-error cases "
                       "through lu_decomp_complex / lin_solve_complex; residuals checked in exact rational arithmetic; non-trivial = n>=2 and factorisation succeeded")
    rep.cov["samples"] = [c[:300] for c in cases[:3]]
    rep.cov["distribution"] = dict(dist.most_common(40))
    rep.cov["correspondence_disagreements"] = len(df)
    return rep.finish()
