"""Whole-solver correspondence sweeps: generate cases, run implementation and model, diff."""
import math
import random
from . import common, gen, harness

METHODS_EXPLICIT = ["DOPRI5", "DOP853", "RK23", "RK4"]
METHODS_IMPLICIT = ["RADAU", "BDF"]
METHODS_ALL = METHODS_EXPLICIT + METHODS_IMPLICIT


def available_methods():
    return list(METHODS_ALL)


def base_case(rng, cid, method, defaults, fams=None, patho=False, **over):
    fam = rng.choice(fams or (gen.PATHO if patho else gen.SMOOTH))
    if method in ("RADAU", "BDF") and not fams and not patho and rng.random() < 0.5:
        fam = rng.choice(gen.STIFF)
    prob = fam(rng)
    n = len(prob["y0"])
    x0 = rng.choice([0.0, 0.0, round(rng.uniform(-2, 2), 2)])
    x0 = prob.get("x0", x0)
    span = prob["span"]
    backward = rng.random() < 0.35 and not prob.get("forward_only")
    xend = x0 - span if backward else x0 + span
    rtol, atol, mode = gen.rand_tols(rng, n)
    if method in ("RADAU",) and (rtol == 0.0 or (isinstance(rtol, list) and 0.0 in rtol)):
        rtol = 1e-6  # known finding F13 is exercised separately
    if mode == "rel" and prob["name"] in ("zero", "const", "sho", "vdp", "rot3", "forced", "linear1", "linear2", "linear3", "linear4", "discont"):
        atol = 1e-9  # pure relative control needs a solution bounded away from 0
    kw = dict(method=method, prob=prob, x0=x0, xend=xend, rtol=rtol, atol=atol, defaults=defaults)
    if method in ("RADAU", "BDF"):
        kw["use_jac"] = bool(prob.get("jac")) and rng.random() < 0.6
        if isinstance(rtol, float) and rtol < 1e-9:
            kw["rtol"] = 1e-9
        if isinstance(rtol, list):
            kw["rtol"] = [max(r, 1e-9) for r in rtol]
        if rtol == 0.0:
            kw["rtol"] = 1e-6
    kw.update(over)
    meta = {"family": prob["name"], "n": n, "backward": backward, "tolmode": mode, "method": method}
    return kw, meta


def make_cases(seed, ncases, profile, defaults, methods=None):
    """profile: function(rng, kw, meta) -> mutates kw/meta with option choices"""
    rng = random.Random(seed)
    methods = methods or available_methods()
    cases, metas = [], {}
    for i in range(ncases):
        method = methods[i % len(methods)]
        kw, meta = base_case(rng, i, method, defaults, patho=profile.get("patho", False), fams=profile.get("fams"))
        fn = profile.get("options")
        if fn:
            fn(rng, kw, meta)
        cid = "%s%d" % (profile.get("tag", "c"), i)
        line = gen.solve_case(cid, **kw)
        cases.append(line)
        metas[cid] = (meta, kw)
    return cases, metas


def run_both(cases, timeout=900):
    ok, log = harness.build_all()
    if not ok:
        return None, None, log
    impl, e1 = harness.run_impl(cases, timeout)
    model, e2 = harness.run_model(cases, timeout)
    return impl, model, "; ".join(e1 + e2)


# ---- option profiles -------------------------------------------------------------------------

def opt_plain(rng, kw, meta):
    pass


def opt_output(rng, kw, meta):
    """t_eval / dense / events / first_step / max_step / max_steps mixes"""
    x0, xend = kw["x0"], kw["xend"]
    span = xend - x0
    if rng.random() < 0.5:
        k = rng.randint(0, 12)
        pts = sorted(rng.uniform(0, 1) for _ in range(k))
        te = [x0 + span * p for p in pts]
        if rng.random() < 0.4:
            te = [x0] + te
        if rng.random() < 0.4:
            te = te + [xend]
        if rng.random() < 0.2 and te:
            j = rng.randrange(len(te))
            te.insert(j, te[j])
        kw["t_eval"] = te
        meta["teval"] = len(te)
    if rng.random() < 0.5:
        kw["dense"] = True
        kw["query"] = [x0 + span * rng.uniform(-0.1, 1.1) for _ in range(4)] + [x0, xend]
    else:
        kw["query"] = [x0 + span * 0.5]
    if rng.random() < 0.5:
        kw["events"] = gen.gen_events(rng, kw["prob"], x0, xend)
        meta["events"] = len(kw["events"])
    r = rng.random()
    if r < 0.25:
        kw["first_step"] = abs(span) * rng.choice([1e-3, 0.01, 0.1, 0.5])
        meta["first_step"] = True
    r = rng.random()
    if r < 0.3:
        kw["max_step"] = abs(span) / rng.choice([3, 7, 16, math.pi, 50])
        meta["max_step"] = True
    if rng.random() < 0.2:
        kw["max_steps"] = rng.randint(1, 40)
        meta["max_steps"] = True


PROFILES = {
    "plain": {"tag": "p", "options": opt_plain},
    "output": {"tag": "o", "options": opt_output},
    "patho": {"tag": "x", "options": opt_plain, "patho": True},
}
