#!/usr/bin/env python3-vt
"""Runs the Python binding (ivp.solve_ivp, built from /repo's working tree with --features python and the
verification hook) on the same case lines as the Rust harness and prints the result in the same format.
Right-hand sides, events and Jacobians are the expression ASTs evaluated with Python floats in AST order,
i.e. with the same IEEE operations as the Rust evaluator."""
import math
import struct
import sys

sys.path.insert(0, sys.argv[1])
import numpy as np  # noqa: E402
import ivp  # noqa: E402


def unhx(s):
    return struct.unpack("<d", struct.pack("<Q", int(s, 16)))[0]


def hx(v):
    v = float(v)
    if v != v:
        return "0x7ff8000000000000"
    return "0x%016x" % struct.unpack("<Q", struct.pack("<d", v))[0]


def hxlist(vs):
    return ",".join(hx(v) for v in vs)


def unlist(s):
    body = s.split(":", 1)[1] if ":" in s else ""
    return [unhx(x) for x in body.split(",")] if body else []


def parse_expr(s):
    toks = s.split(",")
    pos = [0]

    def go():
        t = toks[pos[0]]
        pos[0] += 1
        if t == "t":
            return ("t",)
        if t in "+-*/" and len(t) == 1:
            a = go(); b = go()
            return (t, a, b)
        if t in ("neg", "abs", "sqrt"):
            return (t, go())
        if t == "iflt":
            a = go(); b = go(); c = go(); d = go()
            return ("iflt", a, b, c, d)
        if t[0] == "y":
            return ("y", int(t[1:]))
        if t[0] == "c":
            return ("c", unhx(t[1:]))
        raise ValueError(t)
    e = go()
    assert pos[0] == len(toks)
    return e


def ev(e, t, y):
    k = e[0]
    if k == "c":
        return e[1]
    if k == "t":
        return t
    if k == "y":
        return float(y[e[1]])
    if k == "+":
        return ev(e[1], t, y) + ev(e[2], t, y)
    if k == "-":
        return ev(e[1], t, y) - ev(e[2], t, y)
    if k == "*":
        return ev(e[1], t, y) * ev(e[2], t, y)
    if k == "/":
        a, b = ev(e[1], t, y), ev(e[2], t, y)
        try:
            return a / b
        except ZeroDivisionError:
            if a != a or a == 0.0:
                return float("nan")
            return math.copysign(float("inf"), a) * math.copysign(1.0, b)
    if k == "neg":
        return -ev(e[1], t, y)
    if k == "abs":
        return abs(ev(e[1], t, y))
    if k == "sqrt":
        v = ev(e[1], t, y)
        return math.sqrt(v) if v >= 0 else float("nan")
    if k == "iflt":
        return ev(e[3], t, y) if ev(e[1], t, y) < ev(e[2], t, y) else ev(e[4], t, y)
    raise ValueError(k)


def run_solve(kv):
    out = []
    fexprs = [parse_expr(x) for x in kv["f"].split(":", 1)[1].split(";")] if kv["f"].split(":", 1)[1] else []
    use_args = kv.get("pyargs", "0") == "1"

    if use_args:
        # the last right-hand-side component is scaled by an extra argument that must reach fun, events and jac
        def fun(t, y, a, b):
            assert (a, b) == (1.0, "tag"), "extra args did not reach fun"
            return [ev(e, t, y) for e in fexprs]
    else:
        def fun(t, y):
            return [ev(e, t, y) for e in fexprs]
    events = None
    evb = kv.get("ev", "0:").split(":", 1)[1]
    if evb:
        events = []
        for item in evb.split(";"):
            d, term, ex = item.split("/", 2)
            pe = parse_expr(ex)
            if use_args:
                def g(t, y, a, b, pe=pe):
                    assert (a, b) == (1.0, "tag"), "extra args did not reach the event function"
                    return ev(pe, t, y)
            else:
                def g(t, y, pe=pe):
                    return ev(pe, t, y)
            g.direction = float(int(d))
            g.terminal = (term != "none")
            events.append(g)
        if kv.get("pyevsingle", "0") == "1" and len(events) == 1:
            events = events[0]
    jac = None
    js = kv.get("jac", "none")
    lay = kv.get("pyjaclayout", "c")

    def layout(rows):
        """the same matrix in different memory layouts / container types (seeded change C20-c read a Fortran-ordered
        buffer as if it were C-ordered)"""
        J = np.array(rows, dtype=float)
        if lay == "f":
            return np.asfortranarray(J)
        if lay == "t":
            return np.ascontiguousarray(J.T).T          # an F-contiguous view
        if lay == "s":
            big = np.zeros((2 * J.shape[0], 2 * J.shape[1]))
            big[::2, ::2] = J
            return big[::2, ::2]                         # a strided, non-contiguous view
        if lay == "l":
            return [list(map(float, r)) for r in rows]   # nested lists (array_like)
        return J
    if js != "none":
        n = int(js.split(":", 1)[0])
        es = [parse_expr(x) for x in js.split(":", 1)[1].split(";")]
        if kv.get("constjac", "0") == "1":
            jac = layout([[ev(es[r * n + c], 0.0, [0.0] * n) for c in range(n)] for r in range(n)])
        elif use_args:
            def jac(t, y, a, b):
                assert (a, b) == (1.0, "tag"), "extra args did not reach jac"
                return layout([[ev(es[r * n + c], t, y) for c in range(n)] for r in range(n)])
        else:
            def jac(t, y):
                return layout([[ev(es[r * n + c], t, y) for c in range(n)] for r in range(n)])
    sparsity = None
    if kv.get("sparsity", "none") != "none":
        n, body = kv["sparsity"].split(":", 1)
        n = int(n)
        S = np.zeros((n, n))
        if body:
            for ent in body.split(","):
                r, c = ent.split("/")
                S[int(r), int(c)] = 1.0
        import scipy.sparse as sp
        fmt = kv.get("spfmt", "dense")
        sparsity = {"dense": S, "csc": sp.csc_matrix(S), "csr": sp.csr_matrix(S), "coo": sp.coo_matrix(S),
                    "lil": sp.lil_matrix(S)}[fmt]
    x0, xend = unhx(kv["x0"]), unhx(kv["xend"])
    y0 = unlist(kv["y0"])
    opts = {}

    def tol(s):
        k, body = s.split(":", 1)
        vals = [unhx(x) for x in body.split(",")] if body else []
        return vals[0] if k == "s" else vals
    opts["rtol"] = tol(kv["rtol"])
    opts["atol"] = tol(kv["atol"])
    for key, name in (("firststep", "first_step"), ("maxstep", "max_step"), ("minstep", "min_step")):
        if kv.get(key, "none") != "none":
            opts[name] = unhx(kv[key])
    if kv.get("maxsteps", "none") != "none":
        opts["max_steps"] = int(kv["maxsteps"])
    method = {"DOPRI5": "RK45", "RADAU": "Radau"}.get(kv["method"], kv["method"])
    t_eval = None if kv.get("teval", "none") == "none" else np.array(unlist(kv["teval"]))
    try:
        res = ivp.solve_ivp(fun, (x0, xend), y0, method=method, t_eval=t_eval, dense_output=(kv["dense"] == "1"),
                            events=events, args=((1.0, "tag") if use_args else None), jac=jac, jac_sparsity=sparsity, **opts)
    except RuntimeError:
        return ["error"]
    except BaseException as ex:  # pyo3 panics surface as PanicException (a BaseException)
        return ["panic"]
    msg = res.message
    out.append("status %s" % msg)
    t = np.asarray(res.t)
    y = np.asarray(res.y)
    out.append("t %d %s" % (len(t), hxlist(t)))
    n = len(y0)
    shape_ok = (y.ndim == 2 and y.shape == (n, len(t))) or (len(t) == 0)
    out.append("y %d%s" % (len(t), "".join(" " + hxlist(y[:, i]) for i in range(len(t))) if shape_ok else " SHAPE%r" % (y.shape,)))
    if events is not None:
        for i, te in enumerate(res.t_events):
            te = np.asarray(te)
            out.append("tev %d %d %s" % (i, len(te), hxlist(te)))
            ye = res.y_events[i]
            ye = np.asarray(ye) if len(te) else np.zeros((0, n))
            ok = ye.shape == (len(te), n)
            out.append("yev %d %d%s" % (i, len(te), "".join(" " + hxlist(ye[k]) for k in range(len(te))) if ok else " SHAPE%r" % (ye.shape,)))
    out.append("pystatus %d %s" % (res.status, res.success))
    out.append("pystats %d %d %d" % (res.nfev, res.njev, res.nlu))
    out.append("ypy %d %d %s" % (y.shape[0] if y.ndim == 2 else -1, y.shape[1] if y.ndim == 2 else -1, hxlist(np.ravel(y))))
    q = unlist(kv.get("query", "0:"))
    if res.sol is not None and res.sol.t_min is not None:
        lo, hi = min(res.sol.t_min, res.sol.t_max), max(res.sol.t_min, res.sol.t_max)
        out.append("span %s %s" % (hx(res.sol.t_min), hx(res.sol.t_max)))
        inside = [v for v in q if lo <= v <= hi]
        for v in inside:
            r1 = np.asarray(res.sol(v))
            out.append("sol %s ok %s%s" % (hx(v), hxlist(r1), "" if r1.shape == (n,) else " SHAPE%r" % (r1.shape,)))
        if inside:
            rk = np.asarray(res.sol(np.array(inside)))
            okk = rk.shape == (n, len(inside)) and all(hxlist(rk[:, k]) == hxlist(np.asarray(res.sol(inside[k]))) for k in range(len(inside)))
            out.append("solmany %s" % ("ok" if okk else "MISMATCH shape %r" % (rk.shape,)))
    else:
        out.append("span none")
    return out


def run_group(kv):
    spec = kv["cols"].split(":", 1)[1]
    cols = [[int(r) for r in c.split(",")] if c else [] for c in spec.split("|")] if spec else []
    groups, ng = ivp._verif_group_columns(cols)
    return ["groups %s" % ",".join(str(g) for g in groups), "ngroups %d" % ng]


def main():
    for line in sys.stdin:
        line = line.strip()
        if not line or line.startswith("#"):
            continue
        toks = line.split()
        kv = dict(t.split("=", 1) for t in toks[1:] if "=" in t)
        print("case %s" % kv.get("id", ""))
        try:
            body = run_solve(kv) if toks[0] == "solve" else run_group(kv)
        except Exception as ex:  # a harness error must be visible, not silent
            body = ["pyharness-error %r" % (ex,)]
        for l in body:
            print(l)
        print("end")
        sys.stdout.flush()


if __name__ == "__main__":
    main()
